//! Child module of src/storage/read_result.rs under cfg(kani).
#![allow(dead_code, unused_imports)]
use super::*;

fn any_rr() -> ReadResult<BlobRecordTimestamp> {
    let tag: u8 = kani::any();
    let ts: u64 = kani::any();
    match tag % 3 {
        0 => ReadResult::Found(BlobRecordTimestamp::new(ts)),
        1 => ReadResult::Deleted(BlobRecordTimestamp::new(ts)),
        _ => ReadResult::NotFound,
    }
}

fn ts_of(r: &ReadResult<BlobRecordTimestamp>) -> Option<u64> {
    match r {
        ReadResult::Found(t) => Some(t.0),
        ReadResult::Deleted(t) => Some(t.0),
        ReadResult::NotFound => None,
    }
}

fn kind_of(r: &ReadResult<BlobRecordTimestamp>) -> u8 {
    match r {
        ReadResult::Found(_) => 0,
        ReadResult::Deleted(_) => 1,
        ReadResult::NotFound => 2,
    }
}

/// C01 latest_fold (timestamp flavour, used by `contains`): folding the per-blob results in iteration order
/// (active, then closed newest -> oldest) with the real `latest` yields the FIRST element of maximal
/// timestamp (ties keep the more recent blob); NotFound iff every element is NotFound.
#[kani::proof]
#[kani::unwind(6)]
fn c01_latest_fold_ts() {
    const B: usize = 4;
    let rs: [(u8, u64); B] = kani::any();
    let mk = |(tag, ts): (u8, u64)| match tag % 3 {
        0 => ReadResult::Found(BlobRecordTimestamp::new(ts)),
        1 => ReadResult::Deleted(BlobRecordTimestamp::new(ts)),
        _ => ReadResult::NotFound,
    };
    let mut acc: ReadResult<BlobRecordTimestamp> = ReadResult::NotFound;
    let mut i = 0;
    while i < B {
        acc = acc.latest(mk(rs[i]));
        i += 1;
    }
    // reference: first index with maximal Option<ts>
    let mut best: Option<usize> = None;
    let mut j = 0;
    while j < B {
        let r = mk(rs[j]);
        if let Some(t) = ts_of(&r) {
            match best {
                None => best = Some(j),
                Some(b) => {
                    if t > ts_of(&mk(rs[b])).unwrap() {
                        best = Some(j)
                    }
                }
            }
        }
        j += 1;
    }
    match best {
        None => assert!(acc.is_not_found()),
        Some(b) => {
            let e = mk(rs[b]);
            assert!(kind_of(&acc) == kind_of(&e));
            assert!(ts_of(&acc) == ts_of(&e));
        }
    }
    kani::cover!(best == Some(2), "winner in the middle");
    kani::cover!(
        rs[0].0 % 3 == 0 && rs[1].0 % 3 == 1 && rs[0].1 == rs[1].1 && acc.is_found(),
        "tie: found in newer blob beats deleted in older blob"
    );
    kani::cover!(
        rs[0].0 % 3 == 1 && rs[1].0 % 3 == 0 && rs[0].1 == rs[1].1 && acc.is_deleted(),
        "tie: deleted in newer blob beats found in older blob"
    );
}

/// Two-operand exactness of both `latest` impls' comparison rule on timestamps.
#[kani::proof]
fn c01_latest_pair_ts() {
    let a = any_rr();
    let b = any_rr();
    let (ka, ta, kb, tb) = (kind_of(&a), ts_of(&a), kind_of(&b), ts_of(&b));
    let r = a.latest(b);
    let take_b = match (ta, tb) {
        (None, Some(_)) => true,
        (Some(x), Some(y)) => y > x,
        _ => false,
    };
    if take_b {
        assert!(kind_of(&r) == kb && ts_of(&r) == tb);
    } else {
        assert!(kind_of(&r) == ka && ts_of(&r) == ta);
    }
    kani::cover!(ta == tb && ta.is_some() && ka != kb, "tie with different kinds");
}

/// C01 latest_fold (Entry flavour, used by `read`): same rule; entries are identified by blob_offset.
#[kani::proof]
#[kani::unwind(5)]
fn c01_latest_fold_entry() {
    const B: usize = 3;
    let rs: [(u8, u64); B] = kani::any();
    let name = std::sync::Arc::new(crate::blob::FileName::kani_new(0));
    let file = crate::prelude::File::kani_model(0, 0, 0);
    let mk = |i: usize| -> ReadResult<Entry> {
        let (tag, ts) = rs[i];
        match tag % 3 {
            0 => {
                let mut h = crate::prelude::RecordHeader::kani_with(Vec::new(), ts, 0, i as u64);
                let _ = &mut h;
                ReadResult::Found(Entry::new(h, file.clone(), name.clone()))
            }
            1 => ReadResult::Deleted(BlobRecordTimestamp::new(ts)),
            _ => ReadResult::NotFound,
        }
    };
    let mut acc: ReadResult<Entry> = ReadResult::NotFound;
    let mut i = 0;
    while i < B {
        acc = acc.latest(mk(i));
        i += 1;
    }
    let mut best: Option<usize> = None;
    let mut j = 0;
    while j < B {
        if rs[j].0 % 3 != 2 {
            match best {
                None => best = Some(j),
                Some(b) => {
                    if rs[j].1 > rs[b].1 {
                        best = Some(j)
                    }
                }
            }
        }
        j += 1;
    }
    match (&acc, best) {
        (ReadResult::NotFound, None) => {}
        (ReadResult::Found(e), Some(b)) => {
            assert!(rs[b].0 % 3 == 0);
            assert!(e.kani_header().blob_offset() == b as u64);
            assert!(e.timestamp().0 == rs[b].1);
        }
        (ReadResult::Deleted(t), Some(b)) => {
            assert!(rs[b].0 % 3 == 1);
            assert!(t.0 == rs[b].1);
        }
        _ => assert!(false),
    }
    kani::cover!(best == Some(1) && rs[1].1 == rs[2].1 && rs[2].0 % 3 != 2, "tie between closed blobs");
    std::mem::forget(acc);
    std::mem::forget(file);
    std::mem::forget(name);
}
