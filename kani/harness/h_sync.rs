//! Child module of src/io/unix/sync.rs under cfg(kani): E1 twins + harnesses on the real File code.
#![allow(dead_code, unused_imports, static_mut_refs)]
use super::*;
use crate::kani_env as env;
use std::sync::atomic::AtomicU64;

// ---- E1 twins (the originals are cfg(not(kani)) in the scratch copy) --------------------------
impl File {
    pub(super) async fn background_sync_call<F, R>(f: F) -> R
    where
        F: FnOnce() -> R + Send + 'static,
        R: Send + 'static,
    {
        env::background(f).await
    }

    pub(super) fn inplace_sync_call<F, R>(f: F) -> R
    where
        F: FnOnce() -> R + Send + 'static,
        R: Send + 'static,
    {
        env::inplace(f)
    }

    pub(super) fn can_run_inplace(len: u64) -> bool {
        len <= MAX_SYNC_OPERATION_SIZE as u64 && env::multi_thread()
    }

    pub(super) async fn from_file(
        _path: impl AsRef<Path>,
        _setup: impl Fn(&mut OpenOptions) -> &mut OpenOptions,
    ) -> IOResult<Self> {
        let len = unsafe { env::FILES[0].len } as u64;
        Ok(Self::kani_model(0, len, len))
    }

    pub(crate) fn created_at(&self) -> IOResult<SystemTime> {
        Ok(SystemTime::UNIX_EPOCH)
    }

    /// A `File` over model file `idx` with the given counters.
    pub(crate) fn kani_model(idx: usize, size: u64, synced: u64) -> Self {
        Self {
            inner: Arc::new(FileInner {
                std_file: env::model_std_file(idx),
                size: AtomicU64::new(size),
                synced_size: AtomicU64::new(synced),
            }),
        }
    }
}

fn setup_model(size: usize, synced: usize) {
    unsafe {
        env::FILES[0].len = size;
        env::FILES[0].synced = synced;
        env::FILES[0].data = kani::any();
        env::NOPS = 0;
        env::FAULT_AT = kani::any();
        env::FAULT_SHORT = kani::any();
        env::BG_PENDING = kani::any_where(|p: &u8| *p <= 2);
        env::MULTI_THREAD = kani::any();
    }
}

/// C07 append_only / C11: write_append_all from an arbitrary (size, synced) state, with one arbitrary
/// fault (error or short write) at an arbitrary op: bytes below the old end are never touched, all writes
/// lie in [old_size, old_size+len), size' = old_size + len; on success the bytes are the payload.
#[kani::proof]
#[kani::unwind(6)]
#[kani::stub(<std::fs::File as std::os::unix::fs::FileExt>::write_at, crate::kani_env::stub_write_at)]
#[kani::stub(<std::fs::File as std::os::unix::fs::FileExt>::read_at, crate::kani_env::stub_read_at)]
#[kani::stub(std::fs::File::sync_all, crate::kani_env::stub_sync_all)]
fn c07_append_all_only_appends() {
    let old: usize = kani::any();
    kani::assume(old <= 16);
    let synced: usize = kani::any();
    kani::assume(synced <= old);
    setup_model(old, synced);
    let before = unsafe { env::FILES[0].data };
    let file = File::kani_model(0, old as u64, synced as u64);
    let n: usize = kani::any();
    kani::assume(n >= 1 && n <= 4);
    let payload: [u8; 4] = kani::any();
    let buf = Bytes::copy_from_slice(&payload[..n]);
    let res = env::block_on(file.write_append_all(buf), 3);
    let after = unsafe { env::FILES[0].data };
    // nothing below the old end changed
    let idx: usize = kani::any();
    kani::assume(idx < old);
    assert!(after[idx] == before[idx]);
    // every write op lies inside the reserved range
    let nops = unsafe { env::NOPS };
    assert!(nops >= 1 && nops <= 4);
    let k: usize = kani::any();
    kani::assume(k < nops && k < env::MAXOPS);
    let op = unsafe { env::OPLOG[k] };
    assert!(op.kind == env::OpKind::Write);
    assert!(op.off >= old as u64 && op.off as usize + op.len <= old + n);
    // the size counter advanced by exactly n, success or not
    assert!(file.size() == (old + n) as u64);
    if res.is_ok() {
        let j: usize = kani::any();
        kani::assume(j < n);
        assert!(after[old + j] == payload[j]);
        kani::cover!(unsafe { env::FAULT_AT } < nops, "short write retried to completion");
    } else {
        kani::cover!(true, "failed append");
    }
    kani::cover!(res.is_ok() && old > 0, "successful append to non-empty file");
    std::mem::forget(file);
}

/// C12 fsync_accounting: after a successful fsyncdata no dirty bytes remain (w.r.t. the size at the call)
/// and the model really saw a sync; after a failed one synced_size is unchanged.
#[kani::proof]
#[kani::unwind(4)]
#[kani::stub(<std::fs::File as std::os::unix::fs::FileExt>::write_at, crate::kani_env::stub_write_at)]
#[kani::stub(std::fs::File::sync_all, crate::kani_env::stub_sync_all)]
fn c12_fsync_accounting() {
    let size: usize = kani::any();
    kani::assume(size <= env::CAP);
    let synced: usize = kani::any();
    kani::assume(synced <= size);
    setup_model(size, synced);
    let file = File::kani_model(0, size as u64, synced as u64);
    assert!(file.dirty_bytes() == (size - synced) as u64);
    let res = env::block_on(file.fsyncdata(), 3);
    if res.is_ok() {
        assert!(file.dirty_bytes() == 0);
        assert!(file.synced_size() == size as u64);
        assert!(unsafe { env::NOPS } == 1);
        assert!(unsafe { env::OPLOG[0].kind } == env::OpKind::Sync && unsafe { env::OPLOG[0].ok });
        assert!(unsafe { env::FILES[0].synced } == size);
        kani::cover!(size > synced, "sync with dirty bytes");
    } else {
        assert!(file.synced_size() == synced as u64);
        kani::cover!(true, "failed sync");
    }
    std::mem::forget(file);
}

