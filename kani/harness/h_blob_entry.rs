//! Child module of src/blob/entry.rs under cfg(kani).
#![allow(dead_code, unused_imports)]
use super::*;
impl Entry {
    pub(crate) fn kani_header(&self) -> &RecordHeader {
        &self.header
    }
}
