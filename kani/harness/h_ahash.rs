//! Child module of src/filter/ahash/fallback_hash.rs under cfg(kani).
#![allow(dead_code, unused_imports)]
use super::*;

// Reference implementation of the bloom hash of the pinned release (aHash 0.7.4 fallback, little-endian target),
// written out independently of the code under test: plain integer arithmetic on slices.
const REF_MULTIPLE: u64 = 6364136223846793005;
const REF_PI: [u64; 4] = [0x243f_6a88_85a3_08d3, 0x1319_8a2e_0370_7344, 0xa409_3822_299f_31d0, 0x082e_fa98_ec4e_6c89];

fn ref_fold_exact(s: u64, by: u64) -> u64 {
    let r = (s as u128).wrapping_mul(by as u128);
    (r as u64) ^ ((r >> 64) as u64)
}

/// Stand-in for `folded_multiply` used on BOTH sides of the dataflow harnesses (probe P26: chains of symbolic
/// 64x64->128 multiplications do not finish in CBMC).  Multiplication-free, not commutative, every input bit reaches
/// the output: the harnesses then decide that the code under test feeds the same operands, in the same order, to
/// `folded_multiply` and combines the results in the same way as the reference.  `folded_multiply` itself is pinned
/// by `c17_folded_multiply_def`.
pub(crate) fn mix_stub(s: u64, by: u64) -> u64 {
    (s.rotate_left(13) ^ by).wrapping_add(s & 0x5555_5555_5555_5555) ^ by.rotate_left(29) ^ (s >> 3)
}

fn ref_fold(s: u64, by: u64) -> u64 {
    mix_stub(s, by)
}

fn le64(b: &[u8]) -> u64 {
    u64::from_le_bytes([b[0], b[1], b[2], b[3], b[4], b[5], b[6], b[7]])
}

struct RefHasher {
    buffer: u64,
    pad: u64,
    extra: [u64; 2],
}

impl RefHasher {
    fn new(key1: u128, key2: u128) -> Self {
        let pi0 = (REF_PI[0] as u128) | ((REF_PI[1] as u128) << 64);
        let pi1 = (REF_PI[2] as u128) | ((REF_PI[3] as u128) << 64);
        let k1 = key1 ^ pi0;
        let k2 = key2 ^ pi1;
        Self { buffer: k1 as u64, pad: (k1 >> 64) as u64, extra: [k2 as u64, (k2 >> 64) as u64] }
    }
    fn large(&mut self, lo: u64, hi: u64) {
        let combined = ref_fold(lo ^ self.extra[0], hi ^ self.extra[1]);
        self.buffer = (self.buffer.wrapping_add(self.pad) ^ combined).rotate_left(23);
    }
    fn write(&mut self, input: &[u8]) {
        let n = input.len();
        self.buffer = self.buffer.wrapping_add(n as u64).wrapping_mul(REF_MULTIPLE);
        if n > 16 {
            // tail (last 16 bytes) first, then the 16-byte blocks from the front while more than 16 bytes remain
            self.large(le64(&input[n - 16..n - 8]), le64(&input[n - 8..n]));
            let mut at = 0;
            while n - at > 16 {
                self.large(le64(&input[at..at + 8]), le64(&input[at + 8..at + 16]));
                at += 16;
            }
        } else if n > 8 {
            self.large(le64(&input[0..8]), le64(&input[n - 8..n]));
        } else if n >= 4 {
            let a = u32::from_le_bytes([input[0], input[1], input[2], input[3]]) as u64;
            let b = u32::from_le_bytes([input[n - 4], input[n - 3], input[n - 2], input[n - 1]]) as u64;
            self.large(a, b);
        } else if n >= 2 {
            self.large(u16::from_le_bytes([input[0], input[1]]) as u64, input[n - 1] as u64);
        } else if n == 1 {
            self.large(input[0] as u64, input[0] as u64);
        } else {
            self.large(0, 0);
        }
    }
    fn finish(&self) -> u64 {
        let rot = (self.buffer & 63) as u32;
        ref_fold(self.buffer, self.pad).rotate_left(rot)
    }
}

fn same_as_pinned<const N: usize>() {
    let input: [u8; N] = kani::any();
    let which: u8 = kani::any();
    kani::assume(which < 2);
    // the keys Bloom::hashers uses for hasher i: (i + 1, i + 2)
    let (k1, k2) = ((which as u128) + 1, (which as u128) + 2);
    let mut real = AHasher::new_with_keys(k1, k2);
    real.write(&input);
    let mut reference = RefHasher::new(k1, k2);
    reference.write(&input);
    assert!(real.finish() == reference.finish());
    kani::cover!(which == 1, "second bloom hasher");
}

/// C17/C10 hash_pinned: the bloom hash of the code under test equals the pinned release's hash for every input of the
/// given length (lengths chosen on both sides of the 8- and 16-byte thresholds, incl. > 16 and two full blocks).
#[kani::proof]
#[kani::unwind(4)]
#[kani::stub(crate::filter::ahash::operations::folded_multiply, mix_stub)]
fn c17_hash_pinned_len1_4_8() {
    same_as_pinned::<1>();
    same_as_pinned::<4>();
    same_as_pinned::<8>();
}

/// the 8-byte case alone (the common key size): separate so that a slow run on one length cannot hide the others
#[kani::proof]
#[kani::unwind(4)]
#[kani::stub(crate::filter::ahash::operations::folded_multiply, mix_stub)]
fn c17_hash_pinned_len8() {
    same_as_pinned::<8>();
}

#[kani::proof]
#[kani::unwind(4)]
#[kani::stub(crate::filter::ahash::operations::folded_multiply, mix_stub)]
fn c17_hash_pinned_len9_16() {
    same_as_pinned::<9>();
    same_as_pinned::<16>();
}

#[kani::proof]
#[kani::unwind(4)]
#[kani::stub(crate::filter::ahash::operations::folded_multiply, mix_stub)]
fn c17_hash_pinned_len17() {
    same_as_pinned::<17>();
}

#[kani::proof]
#[kani::unwind(5)]
#[kani::stub(crate::filter::ahash::operations::folded_multiply, mix_stub)]
fn c17_hash_pinned_len33() {
    same_as_pinned::<33>();
}

/// C17/C10: `folded_multiply` is the xor of the two halves of the full 128-bit product.
#[kani::proof]
fn c17_folded_multiply_def() {
    let a: u64 = kani::any();
    let b: u64 = kani::any();
    assert!(folded_multiply(a, b) == ref_fold_exact(a, b));
}

/// the stand-in is not commutative and depends on both operands (vacuity guard for the stubbed harnesses)
#[kani::proof]
fn c17_mix_stub_discriminates() {
    let a: u64 = kani::any();
    let b: u64 = kani::any();
    kani::cover!(mix_stub(a, b) != mix_stub(b, a), "not commutative");
    kani::cover!(mix_stub(a, b) != mix_stub(a, b ^ 1), "depends on by");
    kani::cover!(mix_stub(a, b) != mix_stub(a ^ (1 << 63), b), "depends on s");
}
