//! Environment model for Engine K (DESIGN.md §1.3).  Compiled only under cfg(kani), injected at the crate
//! root of a scratch copy by vlib/overlay.py.  Everything here is part of the trusted base of each claim.
#![allow(dead_code, unused_imports, static_mut_refs)]

use std::future::Future;
use std::pin::Pin;
use std::task::{Context, Poll, RawWaker, RawWakerVTable, Waker};

// ------------------------------------------------------------------------------------------------
// E2: ordered map substitute for BTreeMap<K, Vec<RecordHeader>> (sorted Vec, linear search).
// Assumption recorded in evidence: std's BTreeMap is a correct ordered map with this observable API.
// ------------------------------------------------------------------------------------------------
#[derive(Debug, Clone)]
pub struct VecMap<K, V> {
    pub items: Vec<(K, V)>,
}

impl<K, V> Default for VecMap<K, V> {
    fn default() -> Self {
        Self { items: Vec::new() }
    }
}

impl<K: Ord, V> VecMap<K, V> {
    pub fn new() -> Self {
        Self { items: Vec::new() }
    }
    pub fn len(&self) -> usize {
        self.items.len()
    }
    pub fn is_empty(&self) -> bool {
        self.items.is_empty()
    }
    fn find(&self, k: &K) -> Result<usize, usize> {
        let mut i = 0;
        while i < self.items.len() {
            match self.items[i].0.cmp(k) {
                std::cmp::Ordering::Less => i += 1,
                std::cmp::Ordering::Equal => return Ok(i),
                std::cmp::Ordering::Greater => return Err(i),
            }
        }
        Err(i)
    }
    pub fn get(&self, k: &K) -> Option<&V> {
        match self.find(k) {
            Ok(i) => Some(&self.items[i].1),
            Err(_) => None,
        }
    }
    pub fn get_mut(&mut self, k: &K) -> Option<&mut V> {
        match self.find(k) {
            Ok(i) => Some(&mut self.items[i].1),
            Err(_) => None,
        }
    }
    pub fn contains_key(&self, k: &K) -> bool {
        self.find(k).is_ok()
    }
    pub fn insert(&mut self, k: K, v: V) -> Option<V> {
        match self.find(&k) {
            Ok(i) => Some(std::mem::replace(&mut self.items[i].1, v)),
            Err(i) => {
                self.items.insert(i, (k, v));
                None
            }
        }
    }
    pub fn values(&self) -> impl Iterator<Item = &V> {
        self.items.iter().map(|kv| &kv.1)
    }
    pub fn values_mut(&mut self) -> impl Iterator<Item = &mut V> {
        self.items.iter_mut().map(|kv| &mut kv.1)
    }
    pub fn keys(&self) -> impl Iterator<Item = &K> {
        self.items.iter().map(|kv| &kv.0)
    }
    pub fn iter(&self) -> impl Iterator<Item = (&K, &V)> {
        self.items.iter().map(|kv| (&kv.0, &kv.1))
    }
}

impl<K, V> IntoIterator for VecMap<K, V> {
    type Item = (K, V);
    type IntoIter = std::vec::IntoIter<(K, V)>;
    fn into_iter(self) -> Self::IntoIter {
        self.items.into_iter()
    }
}

// ------------------------------------------------------------------------------------------------
// File model: pread / pwrite / fsync on static byte arrays, ordered op log, one symbolic fault.
// ------------------------------------------------------------------------------------------------
pub const CAP: usize = 32;
pub const NFILES: usize = 2;
pub const FD_BASE: i32 = 100;
pub const MAXOPS: usize = 8;

#[derive(Clone, Copy)]
pub struct MFile {
    pub data: [u8; CAP],
    pub len: usize,
    pub synced: usize,
}

#[derive(Clone, Copy, PartialEq, Eq, Debug)]
pub enum OpKind {
    None,
    Write,
    Read,
    Sync,
}

#[derive(Clone, Copy)]
pub struct Op {
    pub kind: OpKind,
    pub fd: usize,
    pub off: u64,
    pub len: usize,   // requested length
    pub done: usize,  // bytes actually transferred
    pub ok: bool,
}

pub static mut FILES: [MFile; NFILES] = [MFile { data: [0; CAP], len: 0, synced: 0 }; NFILES];
pub static mut OPLOG: [Op; MAXOPS] =
    [Op { kind: OpKind::None, fd: 0, off: 0, len: 0, done: 0, ok: true }; MAXOPS];
pub static mut NOPS: usize = 0;
/// index of the operation that faults (usize::MAX = none)
pub static mut FAULT_AT: usize = usize::MAX;
/// 0 = the op returns Err(EIO-like); n>0 = the write transfers only min(n, len-1) bytes ("short write")
pub static mut FAULT_SHORT: usize = 0;
/// number of Pending results a background call yields after its closure has run (0..=2)
pub static mut BG_PENDING: u8 = 0;
/// what can_run_inplace's runtime-flavour test answers
pub static mut MULTI_THREAD: bool = true;

fn fdx(f: &std::fs::File) -> usize {
    use std::os::unix::io::AsRawFd;
    let fd = f.as_raw_fd();
    let i = (fd - FD_BASE) as usize;
    assert!(i < NFILES);
    i
}

fn log_op(op: Op) {
    unsafe {
        if NOPS < MAXOPS {
            OPLOG[NOPS] = op;
        }
        NOPS += 1;
    }
}

pub fn stub_write_at(f: &std::fs::File, buf: &[u8], offset: u64) -> std::io::Result<usize> {
    let i = fdx(f);
    unsafe {
        let fault = NOPS == FAULT_AT;
        if fault && FAULT_SHORT == 0 {
            log_op(Op { kind: OpKind::Write, fd: i, off: offset, len: buf.len(), done: 0, ok: false });
            return Err(std::io::Error::from(std::io::ErrorKind::Other));
        }
        let mut n = buf.len();
        if fault && n > 1 {
            n = if FAULT_SHORT < n { FAULT_SHORT } else { n - 1 };
        }
        let off = offset as usize;
        kani::assume(offset <= CAP as u64 && off + n <= CAP);
        FILES[i].data[off..off + n].copy_from_slice(&buf[..n]);
        if off + n > FILES[i].len {
            FILES[i].len = off + n;
        }
        log_op(Op { kind: OpKind::Write, fd: i, off: offset, len: buf.len(), done: n, ok: true });
        Ok(n)
    }
}

pub fn stub_read_at(f: &std::fs::File, buf: &mut [u8], offset: u64) -> std::io::Result<usize> {
    let i = fdx(f);
    unsafe {
        if NOPS == FAULT_AT {
            log_op(Op { kind: OpKind::Read, fd: i, off: offset, len: buf.len(), done: 0, ok: false });
            return Err(std::io::Error::from(std::io::ErrorKind::Other));
        }
        let len = FILES[i].len;
        let off = if offset as usize > len { len } else { offset as usize };
        let n = if buf.len() < len - off { buf.len() } else { len - off };
        buf[..n].copy_from_slice(&FILES[i].data[off..off + n]);
        log_op(Op { kind: OpKind::Read, fd: i, off: offset, len: buf.len(), done: n, ok: true });
        Ok(n)
    }
}

pub fn stub_sync_all(f: &std::fs::File) -> std::io::Result<()> {
    let i = fdx(f);
    unsafe {
        if NOPS == FAULT_AT {
            log_op(Op { kind: OpKind::Sync, fd: i, off: 0, len: 0, done: 0, ok: false });
            return Err(std::io::Error::from(std::io::ErrorKind::Other));
        }
        FILES[i].synced = FILES[i].len;
        log_op(Op { kind: OpKind::Sync, fd: i, off: 0, len: 0, done: 0, ok: true });
        Ok(())
    }
}

pub fn model_std_file(idx: usize) -> std::fs::File {
    use std::os::unix::io::FromRawFd;
    assert!(idx < NFILES);
    unsafe { std::fs::File::from_raw_fd(FD_BASE + idx as i32) }
}

// ------------------------------------------------------------------------------------------------
// Blocking pool / executor model
// ------------------------------------------------------------------------------------------------
pub struct Yield {
    pend: u8,
}
impl Future for Yield {
    type Output = ();
    fn poll(mut self: Pin<&mut Self>, _cx: &mut Context<'_>) -> Poll<()> {
        if self.pend > 0 {
            self.pend -= 1;
            Poll::Pending
        } else {
            Poll::Ready(())
        }
    }
}

/// spawn_blocking model: the closure runs to completion when the call is first polled (a spawned blocking
/// task is never cancelled by dropping its JoinHandle), then the JoinHandle is Pending BG_PENDING times.
/// (The result is kept in the coroutine frame, not in a leaf future: dropping an `io::Error`-carrying
/// Option in a leaf future made CBMC explore io::Error's bit-packed drop glue on every path.)
pub async fn background<F, R>(f: F) -> R
where
    F: FnOnce() -> R,
{
    let r = f();
    let pend = unsafe { BG_PENDING };
    Yield { pend }.await;
    r
}

pub fn inplace<F, R>(f: F) -> R
where
    F: FnOnce() -> R,
{
    f()
}

pub fn multi_thread() -> bool {
    unsafe { MULTI_THREAD }
}

fn noop_raw_waker() -> RawWaker {
    fn no_op(_: *const ()) {}
    fn clone(_: *const ()) -> RawWaker {
        noop_raw_waker()
    }
    static VTABLE: RawWakerVTable = RawWakerVTable::new(clone, no_op, no_op, no_op);
    RawWaker::new(std::ptr::null(), &VTABLE)
}

pub fn noop_waker() -> Waker {
    unsafe { Waker::from_raw(noop_raw_waker()) }
}

/// Poll to completion (bounded by `max_polls`; the bound is asserted, not assumed).
pub fn block_on<F: Future>(fut: F, max_polls: usize) -> F::Output {
    let waker = noop_waker();
    let mut cx = Context::from_waker(&waker);
    let mut fut = std::pin::pin!(fut);
    let mut n = 0;
    loop {
        if let Poll::Ready(v) = fut.as_mut().poll(&mut cx) {
            return v;
        }
        n += 1;
        assert!(n <= max_polls, "block_on: poll bound exceeded");
    }
}

/// Poll `k` times, then drop the future (cancellation).  Returns Some(output) if it completed earlier.
pub fn poll_k_then_drop<F: Future>(fut: F, k: usize) -> Option<F::Output> {
    let waker = noop_waker();
    let mut cx = Context::from_waker(&waker);
    let mut fut = Box::pin(fut);
    let mut i = 0;
    while i < k {
        if let Poll::Ready(v) = fut.as_mut().poll(&mut cx) {
            return Some(v);
        }
        i += 1;
    }
    drop(fut);
    None
}

// ------------------------------------------------------------------------------------------------
// Misc stubs
// ------------------------------------------------------------------------------------------------
pub fn stub_format(_args: std::fmt::Arguments<'_>) -> String {
    String::new()
}

pub fn stub_backtrace_capture() -> std::backtrace::Backtrace {
    std::backtrace::Backtrace::disabled()
}
