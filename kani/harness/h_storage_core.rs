//! Child module of src/storage/core.rs under cfg(kani).
#![allow(dead_code, unused_imports)]
use super::*;
use crate::storage::ArrayKey;

fn any_vkind() -> ValidationErrorKind {
    let t: u8 = kani::any();
    match t % 12 {
        0 => ValidationErrorKind::BlobKeySize,
        1 => ValidationErrorKind::BlobMagicByte,
        2 => ValidationErrorKind::BlobVersion,
        3 => ValidationErrorKind::IndexChecksum,
        4 => ValidationErrorKind::IndexVersion,
        5 => ValidationErrorKind::IndexKeySize,
        6 => ValidationErrorKind::IndexMagicByte,
        7 => ValidationErrorKind::RecordDataChecksum,
        8 => ValidationErrorKind::RecordHeaderChecksum,
        9 => ValidationErrorKind::RecordMagicByte,
        10 => ValidationErrorKind::IndexBlobSize,
        _ => ValidationErrorKind::IndexNotWritten,
    }
}

/// C06 classify: which init errors move the blob to quarantine: deserialization errors (incl. unexpected EOF mapped to
/// Bincode) and every validation error except a blob *version* mismatch; nothing else (I/O errors etc. fail init).
#[kani::proof]
#[kani::unwind(3)]
#[kani::stub(std::fmt::format, crate::kani_env::stub_format)]
#[kani::stub(std::backtrace::Backtrace::capture, crate::kani_env::stub_backtrace_capture)]
fn c06_classify_corruption_errors() {
    let which: u8 = kani::any();
    kani::assume(which < 5);
    let vk = any_vkind();
    let is_version = matches!(vk, ValidationErrorKind::BlobVersion);
    let kind = match which {
        0 => ErrorKind::Bincode(String::new()),
        1 => ErrorKind::Validation { kind: vk, cause: String::new() },
        2 => ErrorKind::Uninitialized,
        3 => ErrorKind::FileUnavailable(IOErrorKind::Other),
        _ => ErrorKind::Index(String::new()),
    };
    let e: anyhow::Error = Error::from(kind).into();
    let save = Storage::<ArrayKey<1>>::should_save_corrupted_blob(&e);
    let expect = which == 0 || (which == 1 && !is_version);
    assert!(save == expect);
    kani::cover!(which == 1 && is_version && !save, "blob version mismatch is not quarantined");
    kani::cover!(which == 1 && save, "validation error quarantined");
    kani::cover!(which == 0 && save, "deserialization error quarantined");
    std::mem::forget(e);
}

/// C06 classify (foreign errors): an error that is not a pearl `Error` at all (plain I/O error, ad-hoc anyhow error) never
/// sends a blob to quarantine: init fails instead (a healthy blob behind a permission problem must not be moved away).
#[kani::proof]
#[kani::unwind(3)]
#[kani::stub(std::fmt::format, crate::kani_env::stub_format)]
#[kani::stub(std::backtrace::Backtrace::capture, crate::kani_env::stub_backtrace_capture)]
fn c06_classify_foreign_errors() {
    let which: bool = kani::any();
    let e: anyhow::Error = if which {
        anyhow::Error::msg("some failure")
    } else {
        anyhow::Error::from(std::io::Error::from(IOErrorKind::PermissionDenied))
    };
    let save = Storage::<ArrayKey<1>>::should_save_corrupted_blob(&e);
    assert!(!save);
    kani::cover!(which, "ad-hoc error");
    kani::cover!(!which, "plain I/O error");
    std::mem::forget(e);
}
