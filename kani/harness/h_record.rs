//! Child module of src/record/record.rs under cfg(kani).
#![allow(dead_code, unused_imports)]
use super::*;

impl Header {
    /// Arbitrary header around a given key; checksums arbitrary.
    pub(crate) fn kani_any(key: Vec<u8>) -> Self {
        Self {
            magic_byte: kani::any(),
            key,
            meta_size: kani::any(),
            data_size: kani::any(),
            flags: kani::any(),
            blob_offset: kani::any(),
            timestamp: kani::any(),
            data_checksum: kani::any(),
            header_checksum: kani::any(),
        }
    }
    /// Valid-looking header with the given scalar fields (magic set, sizes 0).
    pub(crate) fn kani_with(key: Vec<u8>, timestamp: u64, flags: u8, blob_offset: u64) -> Self {
        Self {
            magic_byte: RECORD_MAGIC_BYTE,
            key,
            meta_size: 0,
            data_size: 0,
            flags,
            blob_offset,
            timestamp,
            data_checksum: 0,
            header_checksum: 0,
        }
    }
    pub(crate) fn kani_fields(&self) -> (u64, u64, u64, u8, u64, u64, u32, u32) {
        (self.magic_byte, self.meta_size, self.data_size, self.flags, self.blob_offset, self.timestamp,
         self.data_checksum, self.header_checksum)
    }
    pub(crate) fn kani_set_data_checksum(&mut self, c: u32) {
        self.data_checksum = c;
    }
}

impl Meta {
    /// Empty Meta without RandomState::new (which needs getrandom).
    pub(crate) fn kani_empty() -> Self {
        let rs: std::collections::hash_map::RandomState = unsafe { std::mem::transmute((1u64, 2u64)) };
        Self(HashMap::with_hasher(rs))
    }
}

fn le64(b: &[u8], at: usize) -> u64 {
    u64::from_le_bytes([b[at], b[at + 1], b[at + 2], b[at + 3], b[at + 4], b[at + 5], b[at + 6], b[at + 7]])
}
fn le32(b: &[u8], at: usize) -> u32 {
    u32::from_le_bytes([b[at], b[at + 1], b[at + 2], b[at + 3]])
}

fn header_layout<const N: usize>() {
    let key: [u8; N] = kani::any();
    let h = Header::kani_any(key.to_vec());
    let raw = h.to_raw().expect("serialize");
    // pinned layout (release 0.21.0): magic u64 | key len u64 | key | meta_size u64 | data_size u64 | flags u8
    // | blob_offset u64 | timestamp u64 | data_checksum u32 | header_checksum u32, all little-endian
    assert!(raw.len() == 57 + N);
    assert!(h.serialized_size() == (57 + N) as u64);
    assert!(le64(&raw, 0) == h.magic_byte);
    assert!(le64(&raw, 8) == N as u64);
    let i: usize = kani::any();
    kani::assume(i < N);
    assert!(raw[16 + i] == key[i]);
    assert!(le64(&raw, 16 + N) == h.meta_size);
    assert!(le64(&raw, 24 + N) == h.data_size);
    assert!(raw[32 + N] == h.flags);
    assert!(le64(&raw, 33 + N) == h.blob_offset);
    assert!(le64(&raw, 41 + N) == h.timestamp);
    assert!(le32(&raw, 49 + N) == h.data_checksum);
    assert!(le32(&raw, 53 + N) == h.header_checksum);
    // patch positions used by the partial serializer
    assert!(Header::blob_offset_offset(raw.len()) == 33 + N);
    assert!(Header::checksum_offset(raw.len()) == 53 + N);
    // decoder inverts the encoder
    let back = Header::from_raw(&raw).expect("deserialize");
    assert!(back.kani_fields() == h.kani_fields());
    assert!(back.key.len() == N);
    assert!(back.key[i] == key[i]);
    kani::cover!(h.flags & 1 == 1, "deleted flag set");
    std::mem::forget(raw);
}

/// C17/C05 format::record_header — byte layout of the record header (key length 1 and 4).
#[kani::proof]
#[kani::unwind(10)]
fn c17_record_header_layout_k1() {
    header_layout::<1>();
}

#[kani::proof]
#[kani::unwind(10)]
fn c17_record_header_layout_k4() {
    header_layout::<4>();
}

/// C02: deletion markers are flagged by bit 0 of `flags` and nothing else.
#[kani::proof]
fn c02_is_deleted_bit() {
    let h = Header::kani_any(Vec::new());
    assert!(h.is_deleted() == (h.flags & 1 == 1));
    assert!(h.timestamp() == h.timestamp);
    assert!(DELETE_FLAG == 1);
    assert!(RECORD_MAGIC_BYTE == 0xacdc_bcde);
    kani::cover!(h.is_deleted() && h.flags != 1, "other flag bits do not matter");
}

/// C05 crc_detects: data_checksum_audit accepts exactly the stored CRC32C; any XOR burst of <= 32 bits
/// inside an n<=4 byte value is rejected.
#[kani::proof]
#[kani::unwind(6)]
#[kani::stub(std::fmt::format, crate::kani_env::stub_format)]
#[kani::stub(std::backtrace::Backtrace::capture, crate::kani_env::stub_backtrace_capture)]
fn c05_crc_burst_n4() {
    let n: usize = kani::any();
    kani::assume(n >= 1 && n <= 4);
    let data: [u8; 4] = kani::any();
    let mut h = Header::kani_any(Vec::new());
    h.data_checksum = CRC32C.checksum(&data[..n]);
    let ok = h.data_checksum_audit(&data[..n]);
    assert!(ok.is_ok());
    let flip: [u8; 4] = kani::any();
    let mut bad = data;
    let mut nz = false;
    let mut i = 0;
    while i < 4 {
        if i < n {
            bad[i] ^= flip[i];
            nz = nz || flip[i] != 0;
        }
        i += 1;
    }
    kani::assume(nz);
    let r = h.data_checksum_audit(&bad[..n]);
    assert!(r.is_err());
    kani::cover!(n == 4, "4-byte value");
    std::mem::forget(r);
    std::mem::forget(ok);
}

/// C05 audit_exact: the audit is Ok iff the stored checksum equals the CRC32C of the bytes handed in.
#[kani::proof]
#[kani::unwind(5)]
#[kani::stub(std::fmt::format, crate::kani_env::stub_format)]
#[kani::stub(std::backtrace::Backtrace::capture, crate::kani_env::stub_backtrace_capture)]
fn c05_audit_exact_n3() {
    let n: usize = kani::any();
    kani::assume(n <= 3);
    let data: [u8; 3] = kani::any();
    let h = Header::kani_any(Vec::new());
    let r = h.data_checksum_audit(&data[..n]);
    assert!(r.is_ok() == (h.data_checksum == CRC32C.checksum(&data[..n])));
    kani::cover!(r.is_ok() && n == 3, "accepting case");
    kani::cover!(r.is_err(), "rejecting case");
    std::mem::forget(r);
}

/// C02/C17: Record::deleted builds a marker: DELETE flag set, data size 0, empty data, key and timestamp kept,
/// header checksum consistent (validate passes).
#[kani::proof]
#[kani::unwind(70)]
#[kani::stub(std::fmt::format, crate::kani_env::stub_format)]
#[kani::stub(std::backtrace::Backtrace::capture, crate::kani_env::stub_backtrace_capture)]
fn c02_record_deleted_is_marker() {
    let k: [u8; 2] = kani::any();
    let key = crate::storage::ArrayKey::<2>::from(k);
    let ts: u64 = kani::any();
    let rec = Record::deleted(&key, ts, Some(Meta::kani_empty())).expect("deleted");
    assert!(rec.header.is_deleted());
    assert!(rec.header.data_size() == 0);
    assert!(rec.data.len() == 0);
    assert!(rec.header.timestamp() == ts);
    assert!(rec.header.key.len() == 2 && rec.header.key[0] == k[0] && rec.header.key[1] == k[1]);
    assert!(rec.header.magic_byte == RECORD_MAGIC_BYTE);
    assert!(rec.header.meta_size == 8);
    kani::cover!(true, "reached");
    std::mem::forget(rec);
}
