//! Child module of src/blob/file_name.rs under cfg(kani).
#![allow(dead_code, unused_imports)]
use super::*;
impl FileName {
    /// FileName::new goes through format!/Path::join (infeasible for CBMC, probe P2): build directly.
    pub(crate) fn kani_new(id: usize) -> Self {
        Self { id, path: PathBuf::new().into_boxed_path() }
    }
}
