//! Child module of src/blob/header.rs under cfg(kani).
#![allow(dead_code, unused_imports)]
use super::*;

/// C17 format::blob_header: byte layout magic u64 | version u32 | flags u64 (LE), decoder inverts it, and
/// validate() accepts exactly magic 0xdeafabcd with version 1.
#[kani::proof]
#[kani::unwind(22)]
#[kani::stub(std::fmt::format, crate::kani_env::stub_format)]
#[kani::stub(std::backtrace::Backtrace::capture, crate::kani_env::stub_backtrace_capture)]
fn c17_blob_header_layout_and_validation() {
    let h = Header { magic_byte: kani::any(), version: kani::any(), flags: kani::any() };
    let raw = bincode::serialize(&h).expect("ser");
    assert!(raw.len() == 20);
    assert!(h.serialized_size() == 20);
    assert!(u64::from_le_bytes([raw[0], raw[1], raw[2], raw[3], raw[4], raw[5], raw[6], raw[7]]) == h.magic_byte);
    assert!(u32::from_le_bytes([raw[8], raw[9], raw[10], raw[11]]) == h.version);
    assert!(u64::from_le_bytes([raw[12], raw[13], raw[14], raw[15], raw[16], raw[17], raw[18], raw[19]]) == h.flags);
    let back: Header = deserialize(&raw).expect("de");
    assert!(back == h);
    let v = h.validate();
    assert!(v.is_ok() == (h.magic_byte == 0xdeaf_abcd && h.version == 1));
    let v2 = h.validate_without_version();
    assert!(v2.is_ok() == (h.magic_byte == 0xdeaf_abcd));
    let d = Header::new();
    assert!(d.magic_byte == 0xdeaf_abcd && d.version == 1 && d.flags == 0);
    assert!(BLOB_VERSION == 1 && BLOB_MAGIC_BYTE == 0xdeaf_abcd);
    kani::cover!(v.is_ok(), "valid header");
    kani::cover!(v.is_err() && v2.is_ok(), "old version rejected");
    std::mem::forget(v);
    std::mem::forget(v2);
    std::mem::forget(raw);
}
